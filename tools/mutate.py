"""Proof-sensitivity self-check: apply single AST mutations to a function under contract (on a scratch copy of
the source, never in /repo) and report which mutants the obligations reject.

usage: mutate.py <contract key> [max]        (run through ./vcheck-py tools/mutate.py ...)
"""
import ast, copy, os, shutil, sys, tempfile, time
sys.setrecursionlimit(200000)
import pyvc.engine as E
from pyvc.contract import generate, REG
from pyvc.solve import solve_all
import contracts.all  # noqa

CMP = {ast.Lt: ast.LtE, ast.LtE: ast.Lt, ast.Gt: ast.GtE, ast.GtE: ast.Gt, ast.Eq: ast.NotEq, ast.NotEq: ast.Eq}


def sites(fn):
    out = []
    for node in ast.walk(fn):
        if isinstance(node, ast.Compare):
            for i, op in enumerate(node.ops):
                if type(op) in CMP:
                    out.append(("cmp", node, i))
        if isinstance(node, ast.Constant) and isinstance(node.value, int) and not isinstance(node.value, bool):
            out.append(("const+1", node, None))
            out.append(("const-1", node, None))
        if isinstance(node, ast.BoolOp):
            out.append(("boolop", node, None))
        if isinstance(node, (ast.Break, ast.Continue)):
            out.append(("brkcont", node, None))
        if isinstance(node, ast.Call) and isinstance(node.func, ast.Name) and node.func.id in ("min", "max"):
            out.append(("minmax", node, None))
        if isinstance(node, ast.BinOp) and isinstance(node.op, (ast.Add, ast.Sub)):
            out.append(("addsub", node, None))
        if isinstance(node, (ast.Assign, ast.AugAssign)) :
            out.append(("delete", node, None))
    return out


def apply(kind, node, i):
    """Mutate in place; return an undo function."""
    if kind == "cmp":
        old = node.ops[i]; node.ops[i] = CMP[type(old)]()
        return lambda: node.ops.__setitem__(i, old)
    if kind in ("const+1", "const-1"):
        old = node.value; node.value = old + (1 if kind == "const+1" else -1)
        return lambda: setattr(node, "value", old)
    if kind == "boolop":
        old = node.op; node.op = ast.Or() if isinstance(old, ast.And) else ast.And()
        return lambda: setattr(node, "op", old)
    if kind == "minmax":
        old = node.func.id; node.func.id = "max" if old == "min" else "min"
        return lambda: setattr(node.func, "id", old)
    if kind == "addsub":
        old = node.op; node.op = ast.Sub() if isinstance(old, ast.Add) else ast.Add()
        return lambda: setattr(node, "op", old)
    if kind == "brkcont":
        old_cls = node.__class__; node.__class__ = ast.Continue if old_cls is ast.Break else ast.Break
        return lambda: setattr(node, "__class__", old_cls)
    if kind == "delete":
        old = (node.__class__, dict(node.__dict__))
        ln, co = node.lineno, node.col_offset
        node.__class__ = ast.Pass; node.__dict__.clear(); node.lineno = ln; node.col_offset = co
        def undo():
            node.__class__ = old[0]; node.__dict__.clear(); node.__dict__.update(old[1])
        return undo
    raise ValueError(kind)


def verdict(c):
    run = generate(c)
    if run.error:
        return "engine-error", run.error
    res = solve_all(run.vcs)
    bad = [(vc, r) for vc, r in zip(run.vcs, res) if vc.kind != "canary" and r["verdict"] != "proved"]
    if not bad:
        return "SURVIVED", ""
    kinds = sorted({r["verdict"] for _, r in bad})
    return "rejected", f"{len(bad)} obligations ({'/'.join(kinds)}), first: {bad[0][0].kind}::{bad[0][0].label}"


def main():
    key = sys.argv[1]
    limit = int(sys.argv[2]) if len(sys.argv) > 2 else 10 ** 9
    c = REG.contracts[key]
    scratch = tempfile.mkdtemp(prefix="vmut_")
    try:
        real = os.path.join(E.REPO, c.file)
        tree = ast.parse(open(real).read())
        E.REPO = scratch
        dst = os.path.join(scratch, c.file)
        os.makedirs(os.path.dirname(dst), exist_ok=True)
        # the callee contracts read signatures from the same tree: copy the package sources
        shutil.copytree(os.path.join("/repo", "strax"), os.path.join(scratch, "strax"), dirs_exist_ok=True)
        fn = None
        parts = c.qualname.split(".")
        node = tree
        for p in parts:
            node = next(ch for ch in ast.walk(node) if isinstance(ch, (ast.FunctionDef, ast.ClassDef)) and ch.name == p and ch is not node)
        fn = node
        open(dst, "w").write(ast.unparse(tree)); os.utime(dst, ns=(time.time_ns(), time.time_ns()))
        base = verdict(c)
        print("baseline:", base)
        n = caught = 0
        survivors = []
        for kind, nd, i in sites(fn)[:limit]:
            before = ast.unparse(nd) if not isinstance(nd, (ast.Break, ast.Continue)) else type(nd).__name__
            line = getattr(nd, "lineno", 0)
            undo = apply(kind, nd, i)
            try:
                src = ast.unparse(tree)
            except Exception as ex:
                undo(); continue
            after = ast.unparse(nd) if not isinstance(nd, (ast.Break, ast.Continue, ast.Pass)) else type(nd).__name__
            undo()
            open(dst, "w").write(src); os.utime(dst, ns=(time.time_ns(), time.time_ns()))
            E._src_cache.clear()
            try:
                v, info = verdict(c)
            except Exception as ex:
                v, info = "engine-crash", f"{type(ex).__name__}: {ex}"
            n += 1
            if v != "SURVIVED":
                caught += 1
            else:
                survivors.append((kind, line, before, after))
            print(f"{v:13s} {kind:8s} line {line}: {before[:50]!r} -> {after[:50]!r}  {info[:110]}")
        print(f"SUMMARY {key}: {caught}/{n} mutants rejected; survivors: {len(survivors)}")
        for s in survivors:
            print("  survivor:", s)
    finally:
        shutil.rmtree(scratch, ignore_errors=True)


main()
