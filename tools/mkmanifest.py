"""Regenerate MANIFEST.json from the table below (keeps it schema-valid)."""
import json, os
HERE = os.path.dirname(os.path.dirname(os.path.abspath(__file__)))
props = [json.loads(l) for l in open(os.path.join(HERE, "properties.jsonl"))]

CLAIMS = {
 "C17": dict(
  category="proof",
  text="Contract-based deductive proof, for all array lengths and all iterations, that the containment, touching-window, "
       "overlap-index, gap (diff), break-finding and sortedness-check functions return exactly their set-theoretic "
       "definitions and reject unsorted input, and that _get_empty_container_ids (helper of split_by_containment) returns exactly the container numbers that are not full, in order; VCs are generated from the real source on every run and discharged by z3/cvc5. "
       "split_by_containment, abs_time_to_prev_next_interval and sort_by_time are outside the verified subset and are covered by "
       "bounded stand-ins (labelled bounded in the evidence, not counted as proved).",
  note="Trusted: the pyvc VC generator, z3/cvc5, the np.argsort(mergesort) library model, integers as mathematical integers, "
       "numba compiles the verified Python source faithfully (cross-checked on every stand-in input against .py_func).",
  technique="contract-based deductive verification (sidecar contracts + loop invariants, AST->VC generator, z3/cvc5); bounded stand-ins for 3 functions",
  design_ref="DESIGN.md section 6, C17"),
 "C07": dict(
  category="proof",
  text="Contract-based deductive proof over the real source that split_array and Chunk.split obey the laws of chunking for every "
       "sorted interval array and every split time (rows concatenate to the original, every row wholly on one side, CannotSplit "
       "exactly when a row straddles and early split is not allowed, an early split goes to the latest admissible time, both halves "
       "adjacent and carrying the metadata), that the Chunk constructor enforces its range/dtype/type clauses, and that diff is the gap to "
       "the running maximum end; concatenate / merge of two chunks and the Rechunker are under contract as listed in level_note.",
  note="Also proved: Chunk.concatenate for two chunks of one run (spans both, rows of the first followed by the rows of the second, "
       "refuses out-of-order chunks, result well-formed), Chunk.merge for two chunks, Rechunker.get_splits, Rechunker.receive (with and "
       "without a cached chunk: every row is handed out once or kept, pieces contiguous) and flush, and that Chunk.split hands each "
       "half the split of the subruns. Not proved: concatenate across runs (superrun bookkeeping); strax.merge_arrs is an assumed "
       "contract. Trusted: pyvc, z3/cvc5, library models (slicing, min/max, ndarray.max, copy), "
       "integers mathematical, numba faithful to the Python source (cross-checked on each stand-in input).",
  technique="contract-based deductive verification (sidecar contracts, loop invariants, AST->VC generator, z3/cvc5)",
  design_ref="DESIGN.md section 6, C07"),
 "C12": dict(
  category="proof",
  text="Contract-based deductive proof over the real source that outputs violating a plugin's declared contract are rejected by the "
       "functions that guard them: the Chunk constructor (non-integer bounds, non-array data, dtype mismatch, rows outside the range for "
       "the window it inspects), Plugin._check_dtype, Plugin._fix_output (bare array of wrong dtype, chunk labelled with another data "
       "type, non-dict from a multi-output plugin, bare result without a time range), Plugin.chunk, and continuity_check (gaps/overlaps "
       "raise at the offending chunk and nothing is yielded after it).",
  note="Function-level only: that the exception reaches the user through both processors and that nothing is left in storage as valid "
       "is not part of this proof (C06/C04). Also proved: Plugin.chunk hands the constructor the plugin's declared dtype / data type / run id, "
       "DownChunkingPlugin._fix_output checks every label of a dict result, multi-output _fix_output builds a chunk for every provided "
       "label. dtypes / names are opaque values with "
       "uninterpreted pure functions; f-string texts are dropped.",
  technique="contract-based deductive verification (sidecar contracts, ghost input/output traces for the generator, z3/cvc5)",
  design_ref="DESIGN.md section 6, C12"),
 "C18": dict(
  category="proof",
  text="Contract-based deductive proof over the real source, for all record arrays, that record_links connects exactly the time-adjacent "
       "fragments of one pulse in one channel (next_record is the inverse of previous_record, nothing else is linked), that "
       "zero_out_of_bounds and cut_baseline zero exactly the stated samples and leave every other sample and all metadata untouched, and "
       "that overlap_indices is the set-theoretic intersection, and that the reduction kernel _cut_outside_hits keeps a sample exactly if it lies within the "
       "left / right extension of some hit - in the hit's own record or continuing into the linked previous / next fragment of the pulse - zeroes every other "
       "sample and never alters metadata (proved modularly over the contracts of record_links and overlap_indices). find_hits (all fields), the wrapper "
       "cut_outside_hits, baseline and integrate are "
       "covered by bounded stand-ins against their direct definitions (labelled bounded, not counted as proved).",
  note="Not proved: _find_hits (buffer-yield mechanics of growing_result) and the float fields; the wrapper cut_outside_hits (blank copy, HITS_ONLY mark) is bounded. "
       "_cut_outside_hits is proved under the premise that every hit lies inside the valid samples of the record it names (what find_hits produces); "
       "'covered by one of the first k hits' is a ghost predicate defined by unfolding. Trusted: "
       "pyvc, z3/cvc5, integers mathematical (int16 samples), numba faithful (each stand-in input also runs through .py_func).",
  technique="contract-based deductive verification (loop invariants over record arrays, frame clauses, modular calls through proved contracts) + bounded stand-ins for 4 functions",
  design_ref="DESIGN.md section 6, C18"),
 "C19": dict(
  category="exploration",
  text="Bounded exploration on the real code against direct definitions - this is what decides most of the property: find_peaks = "
       "gap-threshold clusters with the duration / area / channel cuts and all peak fields, area conservation of the "
       "hits->peaks->sum_waveform chain, store_downsampled_waveform (smallest fitting factor, block sums, only a fractional tail "
       "dropped), merge_peaks, find_peak_groups, replace_merged (also with merged peaks floored to a coarser sampling grid), tiling of split peaks by both split finders (also on down-sampled parents), sum_waveform "
       "on split children, index_of_fraction and highest_density_region against their defining formulas. Two functions are proved deductively for all inputs: "
       "_replace_merged (the kernel of replace_merged) puts every merged row and every original row outside the ordered, disjoint, non-empty skip windows into the result, "
       "whole, in order, and nothing else (loop invariant with a ghost count of skipped rows and an inductive window lemma); "
       "symmetric_moving_average returns the mean of a[max(0,i-w)..min(n-1,i+w)] for every waveform and wing width (prefix-sum ghost "
       "function over the reals). Known finding F10 (overlap after a max_duration cut) is reported as KNOWN-FINDING.",
  note="The level is 'exploration', not 'proof': only two functions are under contract (the other peak kernels are growing_result generators "
       "over float fields, outside the verifier's subset - said in DESIGN.md); the wrapper replace_merged (touching_windows call, result size) is bounded only; widths are not covered. "
       "Floats are modelled as reals in the moving-average proof; a peak row is modelled by 7 representative fields in the _replace_merged proof.",
  technique="contract-based deductive verification (ghost prefix sums, z3) + bounded stand-ins",
  design_ref="DESIGN.md section 6, C19"),
 "C10": dict(
  category="proof",
  text="Contract-based deductive proof over the real source that time-range selection commutes with chunking: apply_time_range (via the "
       "proved Chunk.split contract) keeps a contiguous run of rows and drops only rows that neither the fully-contained nor the touching "
       "predicate selects; a chunk the loader prunes by its metadata range holds no selected row (lemma); apply_selection keeps exactly the "
       "rows satisfying the mode's predicate, in order, and rejects unknown modes. Hence select(range, loaded rows) = select(range, all rows) "
       "for every law-abiding chunking.",
  note="Also proved: Context.get_iter plans the request and filters every chunk with exactly the selection / columns / time_selection "
       "the caller passed and the absolute time range computed from the request (none re-bound on the way); "
       "Context.estimate_run_start_and_end returns whole seconds (the first chunk's start floored to the second when inferred from "
       "data); Context.to_absolute_time_range takes a row's end from strax.endtime; StorageBackend._read_and_format_chunk cuts every "
       "stored chunk - also a row-less one - to a given range; check_cache saves nothing under a time range / selection / projection. Bounded stand-ins only (never counted as proved): selection strings / callables (numexpr), keep / drop columns, the "
       "seconds conversion, and Context.get_array on stored data against the filtered full result (both processors, rechunked "
       "layouts, no-chunk error, nothing saved by a partial request). Boolean-mask indexing is a trusted library model.",
  technique="contract-based deductive verification (modular: Chunk.split contract at call sites; lemma over the contracts)",
  design_ref="DESIGN.md section 6, C10"),
 "C11": dict(
  category="proof",
  text="Contract-based deductive proof over the real source of the planning decision logic: Context._target_should_be_saved returns true "
       "exactly for always / target-and-is-a-target / explicit-and-listed and raises exactly for a never-saved type listed in save=; in "
       "get_components.check_cache (symbolic execution of the real nested function, all context calls abstracted) a saver is created only "
       "when there is no time range, selection, column projection, fuzzy matching, tolerance of incomplete data, temporary type, loaded "
       "target or disabled superrun writing AND the policy allows it; a plugin is scheduled for computation only when nothing could be "
       "loaded and creation is allowed; a found loader excludes computation and saving; the function's own DataNotAvailable is raised "
       "exactly in the forbidden / always-saved-under-time-range cases. The planning recursion as a whole is a bounded stand-in on the "
       "real Context (small DAGs x stored subsets x policies x modifiers).",
  note="Not proved: that exactly the reachable-not-stored plugins run and each type is delivered once from one origin (bounded stand-in); "
       "_get_partial_loader_for and the processors' loader-vs-plugin wiring are not under contract. Context state is opaque; "
       "recursion is handled by induction (same contract). Also proved: Context._find_options (what 'fuzzy' means) and "
       "StorageFrontend._we_take / _support_superruns / find (only accepted data types, superruns only if provided, no write location "
       "from a readonly frontend), Context._add_saver (every writable frontend is asked in storage order, a refusing one does not stop "
       "the others) and Context.is_stored (several data types: all of them; one: some frontend has it).",
  technique="contract-based deductive verification (dominance obligations via ghost flags in symbolic execution of the real nested function) + bounded stand-in",
  design_ref="DESIGN.md section 6, C11"),
 "C05": dict(
  category="proof",
  text="Monitor proof over the real source of strax/mailbox.py, valid for every interleaving of sender and reader threads: each "
       "locked section of subscribe / send / close / kill / _read (eager and lazy variants) re-establishes the invariant (every "
       "buffered message was sent under its own number; a sent message some subscriber has not read is still buffered - no loss; read "
       "positions only cover sent messages; len(buffer) <= max_messages; the end marker is the highest message), keeps its guarantee "
       "towards other threads, and notifies every condition whose wait predicate it may switch on. The reader generator is proved to "
       "hand out exactly res(Sent[0]), res(Sent[1]), ... in number order, each once, futures replaced by their results, and to stop at "
       "the end marker; send accepts explicit numbers in any order and refuses numbers already read.",
  note="Safety only: termination of the iteration, deadlock freedom, timeouts and the sufficiency of a capacity for a given "
       "displacement are not decided (liveness). Protocol assumptions from the property are preconditions (subscribers register "
       "before the first send; one implicit sender or distinct explicit numbers; lazy => implicit numbering). Trusted: the monitor "
       "rule implementation, the heapq-as-finite-map abstraction, RLock/Condition semantics, pyvc, z3.",
  technique="contract-based deductive verification with the monitor (rely/guarantee) rule: invariant + signal obligations per atomic section, ghost history, z3",
  design_ref="DESIGN.md sections 2.7 and 6, C05"),
 "C13": dict(
  category="proof",
  text="For every interleaving: (eager) no mailbox buffers more than max_messages - the capacity clause is part of the monitor "
       "invariant re-established by every locked section; (lazy) _can_fetch is proved equal to its specification, the sender thread "
       "advances its source only after the gate answered True (dominance obligation at next(iterable)), readers publish their demand "
       "before sleeping, and every section that can switch the gate on notifies the fetch condition; lock discipline and the shape of "
       "divide_outputs are structural (AST) obligations.",
  note="Not decided: the quantitative clause (pipeline comes to rest after a number of further source chunks independent of the run "
       "length) - whole-pipeline and schedule dependent; divide_outputs only structurally. ThreadedMailboxProcessor.__init__ wiring "
       "IS under contract: lazy exactly without worker pools and when allowed, divide_outputs gets the same flag, the outputs exempt "
       "from flow control include all other outputs of a multi-output plugin, the divider is fed only with outputs that have no loader, "
       "savers of computed data drive only in eager mode, each mailbox's capacity is the plugin's max_messages if declared else the "
       "processor-wide value.",
  technique="contract-based deductive verification (monitor rule, dominance obligations via ghost state) + structural AST obligations",
  design_ref="DESIGN.md section 6, C13"),
 "C06": dict(
  category="other",
  text="Exception-relay contracts of the mailbox layer, proved over the real source: kill_from_exception (original reason of a "
       "MailboxKilled is propagated, anything else re-raised after the kill), kill (flags, reason set once, all three conditions "
       "notified), the sender thread _send_from (every exception from the source or from send kills the mailbox; a failed send is "
       "thrown into the source first; regular exhaustion closes), send/_read re-checking the kill flags after every wait, and the "
       "reader killing the mailbox on a consumer exception at yield and re-raising it (the callee's default is read from the source); at processor level ThreadedMailboxProcessor.iter kills every mailbox "
       "upstream with the failure's reason, cleans every mailbox up, shuts the executors down and only then re-raises, "
       "SingleThreadProcessor.iter closes every saver while the exception is being handled before re-raising it (both also for an "
       "OutsideException, whose base class is read from the source), the final scan looks at the savers of every data type and a "
       "processor completes normally only if the pipeline did, and Context.get_iter "
       "throws a failure (or, when the consumer closes the iterator, an OutsideException) into the processor's generator before it "
       "ends. This is the safety half only.",
  note="'every pipeline thread terminates', 'never hangs' and 'terminates when the capacity exceeds the largest lag' are liveness "
       "properties this family cannot decide; the level is therefore 'other', not 'proof'. Structural (AST) obligations on divide_outputs include that a failure while "
       "closing one output kills all outputs (failed on the pinned tree: defect F24, fixed). ThreadedMailboxProcessor.iter assigns into "
       "a tuple when a GeneratorExit reaches it directly (observation F9; not reachable through Context.get_iter): the contract allows "
       "that TypeError.",
  technique="contract-based deductive verification of exceptional postconditions (ghost flags for kill/close calls) + structural obligations",
  design_ref="DESIGN.md section 6, C06"),
 "C03": dict(
  category="proof",
  text="Contract-based deductive proof over the real source of the saving bookkeeping: Saver.save records exactly the chunk's number, "
       "row count, range, run id, subruns, byte size and first/last row times, writes a file exactly for non-empty chunks and returns "
       "the backend's future; Saver.close sets the completion marker, records an exception iff one is being handled, takes overall "
       "start/end from the first/last chunk and finalises the backend exactly once after the closed flag; Saver.save_from saves every "
       "chunk it gets from the rechunker exactly once under consecutive numbers, tracks every write future, and closes exactly once. "
       "Bit-identical rows, boundaries and metadata through the real compressors / file backend are a bounded stand-in.",
  note="Also proved: StorageBackend._read_and_format_chunk, _read_format_split_chunk, Rechunker.receive / flush / get_splits, "
       "SaverSpy (single-thread saving) and strax.io.save_file / _save_file (the size reported is the number of bytes written; temporary "
       "name first, rename afterwards). Backend hooks (_save_chunk, _save_chunk_metadata, _close) are abstract in the Saver proofs; "
       "FileSaver's file layout and the codecs are covered by bounded stand-ins only (labelled).",
  technique="contract-based deductive verification (ghost records of the metadata handed to the backend, ghost sets of write futures) + bounded round-trip stand-in",
  design_ref="DESIGN.md section 6 (C03) and 10"),
 "C04": dict(
  category="proof",
  text="Exceptional contracts of saving, proved over the real source: on every failure path of Saver.save_from closing is still "
       "attempted, the failure is remembered and thrown back into the source before being re-raised, a MailboxKilled ends the saver "
       "without re-raise; on the normal path the data is finalised only after every submitted chunk write has finished AND has been "
       "checked for an exception (a failed write is never reported as success - this obligation failed on the original tree, defect F3, "
       "now fixed); Saver.close never finalises after unfinished writes. The file-system level (temp directory, renames, retry after a "
       "fault) is a bounded fault enumeration with a failing file-system shim on the real FileSaver and both processors.",
  note="Every exception leaving Saver.save_from - also a failure of the final close - is on record in got_exception (failed on the pinned "
       "tree: defect F25, found by the thorough fault enumeration, fixed). Also proved: FileSaver._save_chunk (chunk files go into the temporary directory), FileSaver._close (rename to the final name "
       "only after the complete metadata was flushed), strax.io.save_file (temporary name first) and check_cache's dominance "
       "obligations (nothing is saved while incomplete data is tolerated / under a partial request). "
       "Not covered: abrupt process death inside an OS call, forked (inlined) savers, savers closed by other threads. Known finding F20 "
       "(an OSError at creation of the storage parent directory is treated as 'frontend cannot save') is reported as KNOWN-FINDING.",
  technique="contract-based deductive verification of exceptional postconditions + bounded fault enumeration",
  design_ref="DESIGN.md section 6 (C04) and 10"),
 "C14": dict(
  category="proof",
  text="Contract-based deductive proof over the real source, for every dict of runs and every split time, of the run bookkeeping of "
       "superrun chunks: _split_runs_in_chunk (first half = exactly the runs starting before t cut at t, second half = exactly those "
       "reaching beyond t, zero-duration pieces dropped, empty half is None), _pop_out_empty_run_id (removes exactly the zero-duration "
       "runs), _sorted_subruns_check (accepts exactly the run lists without overlap between neighbours), Chunk.split hands each half "
       "the split of the subruns at the time the rows were split at (this obligation failed on the pinned tree: defect F21, fixed), and "
       "DataDirectory.write_run_metadata serialises the document without re-ordering it (failed on the pinned tree: defect F6, fixed). "
       "End to end - a superrun's rows are its subruns' rows in order of run start, every chunk records exactly the subruns it holds "
       "with spans tiling each subrun, stored superruns re-read identically, a redefined superrun is not served stale - is a bounded "
       "stand-in on the real Context.",
  note="Not proved: the merge direction (_merge_runs_in_chunk / _mergable_check), the sorting in the subruns / superrun setters, "
       "define_run, the superrun branch of check_cache, the superrun storage key (bounded stand-in only). Dicts are modelled as finite "
       "maps with a key sequence; run ids opaque; times mathematical integers.",
  technique="contract-based deductive verification (dict-as-finite-map model, quantified loop invariants over keys, ghost index map) + bounded stand-in on the real Context",
  design_ref="DESIGN.md section 6 (C14) and 10"),
 "C02": dict(
  category="proof",
  text="Contract-based deductive proof over the real source of what enters a storage key and when cached state may be reused: "
       "Context.__add_lineage_to_plugin files, under the plugin's last provided type, (class name, version, exactly the TRACKED options "
       "with their configured values) and merges the lineage of every dependency, so a tracked option / version / class change reaches "
       "the key of the type and of all its descendants and an untracked option never enters a key; StorageFrontend._matches is exact "
       "without fuzzy settings and compares the lineages with the fuzzy parts removed otherwise; Context._plugins_are_cached allows "
       "reuse only under the current context hash; Context.register drops the plugin cache whenever it changes the class registry "
       "(this obligation failed on the pinned tree: defect F5 - stale reads after re-registration - fixed); a child plugin's lineage "
       "takes only tracked options; DataDirectory._folder_matches accepts a folder only for its own data type and run and, without fuzzy "
       "settings, only under the identical lineage hash; nothing is saved while fuzzy matching is on. The end-to-end clause (get_array equals a brand-new context on empty storage after any operation sequence), "
       "key sensitivity, exactness of fuzzy acceptance and hash stability across insertion orders / hash seeds are bounded stand-ins.",
  note="Also proved: DataKey._run_id (the key of a superrun hashes its complete definition), Context._set_plugin_config (defaults are "
       "resolved into a copy of the context's configuration), and - a rule of the generator - no function under contract is memoised "
       "(cached_property / lru_cache fail a contract-shape obligation; _find_options is re-evaluated on every lookup). "
       "Not proved: deterministic_hash / hashablize, _filter_lineage, key_for / get_data_key, DataDirectory's directory lookup, child "
       "plugins' lineage, option validation (strax/config.py). Plugins, options and lineages are opaque values with uninterpreted "
       "contains / getitem; the filtering dict comprehension is a trusted library model.",
  technique="contract-based deductive verification (obligations at the lineage store via hooks, ghost flags for registry / cache writes) + bounded stand-ins on the real Context",
  design_ref="DESIGN.md section 6 (C02) and 10"),
 "C15": dict(
  category="proof",
  text="Contract-based deductive proof over the real source of strax.utils.multi_run, valid for every completion order of the "
       "worker threads (the loop over finished futures is verified for an arbitrary finished future): every submission passes the "
       "caller's function, the run id being scheduled, the caller's extra arguments and keywords without the bookkeeping keywords; a "
       "future is filed under the run id it was submitted for; for a finished future the run-id column is built from that future's run "
       "id and merged with that future's own result, and result and run id are collected in lock step; a failing future raises unless "
       "ignore_errors, in which case nothing is collected for it; the returned list is re-ordered by the recorded run ids. Bounded "
       "stand-ins on the real code: multi_run with real threads released in enumerated completion orders (every run executed exactly "
       "once, output in run-id order with the run id attached, failures raised or omitted), and Context.get_array over several runs "
       "with 1..8 workers equals sequential single-run calls.",
  note="Also proved: multi_run for calls that pass run_id_as_bytes / add_run_id_field (the run-id column has the type of the id array as "
       "finally cast), the list runs are scheduled from is stable_sort(np.array(run_ids)) (every requested id, duplicates included), "
       "Context.get_iter, and Context.get_array / Context.make handing a multi-run request to multi_run with the request's own targets, "
       "save list, worker count and chunk numbers. "
       "Not proved: that every run is submitted exactly once (islice window arithmetic), that the final list comprehension applies the "
       "computed order, the temporary merge plugin in Context.get_array. Thread-safety of the shared Context (plugin registry and "
       "caches) under line-level interleavings is a concurrency property this technique family does not decide; the context-level "
       "stand-in runs under the OS scheduler only.",
  technique="contract-based deductive verification (obligations at call / store sites via hooks, ghost function future -> run id) + bounded stand-ins with controlled completion orders",
  design_ref="DESIGN.md section 6 (C15) and 10"),
 "C08": dict(
  category="exploration",
  text="The property as a whole (time-aligned adjacent calls, every input row exactly once) is decided by bounded exploration of the real "
       "Plugin.iter (see the end of this text); its guards are proved: contract-based deductive proof over the real source of Plugin.do_compute, for every pair / triple of input chunks (per arity 1..3): a "
       "plugin that saves by default reaches its computation only with inputs that all cover one identical time interval (otherwise "
       "ValueError before compute), the computation gets exactly the rows of every input (chunk_i / start / end exactly when it takes "
       "them), the result is declared to cover exactly that interval and inherits the inputs' common run annotations; Chunk.split (used "
       "for every trim) obeys the laws of chunking; Plugin._fetch_chunk appends the next chunk of exactly the data type asked for behind what is buffered "
       "(order kept, nothing dropped), answers False only for an exhausted source whose buffer reaches the time needed, raises RuntimeError otherwise and leaves the buffer alone on exhaustion. The behaviour of Plugin.iter as a whole - time-aligned adjacent calls, same-kind "
       "inputs merged row by row, every input row delivered exactly once in order, errors for undeliverable rows - is a bounded stand-in "
       "on the real Plugin.iter driven by hand-made chunk iterators (found defect F11, fixed).",
  note="The level is 'exploration' because Plugin.iter (generator over a dict of input buffers with pacemaker, fetch loops, re-trim "
       "passes and end-of-run checks) is not under contract; proved for all inputs are do_compute (per arity, single-output plugins), "
       "Plugin._fetch_chunk (over opaque chunks, Chunk.concatenate as an uninterpreted function whose own two-chunk contract is proved), "
       "Chunk.split, Chunk.concatenate and Chunk.merge of two chunks. The stand-in also covers per-chunk processing (chunk_i), a non-pacemaker dependency that runs out mid-run and a dependency that goes on after a zero-duration chunk.",
  technique="contract-based deductive verification (per-arity symbolic execution with recorded call arguments) + bounded stand-in on the real Plugin.iter",
  design_ref="DESIGN.md section 6 (C08) and 10"),
 "C09": dict(
  category="exploration",
  text="The property's core - output over any chunking equals the whole-run computation - is decided by bounded exploration of the real "
       "OverlapWindowPlugin (see the end of this text); the window bookkeeping is proved: contract-based deductive proof over the real "
       "source of OverlapWindowPlugin.do_compute (one input kind, one output; first and "
       "later calls), modularly over the proved Chunk.split contract, for every input chunk, cached input and computation result: what "
       "is sent starts where the previous call stopped sending, ends at the new sent_until where the withheld results start (these reach "
       "to the end of the input), nothing beyond end - 2*look-ahead - 1 is sent, sent rows end by sent_until and withheld rows start at "
       "or after it, sending only moves forward, and the input is cached from sent_until - 2*look-back - 1 on; "
       "_get_window_size returns (w, w) for a number and the (non-negative) pair otherwise. That the concatenated output of a "
       "window-local computation over every chunking equals the whole-run computation, with contiguous and (multi-output) aligned "
       "chunks, is a bounded stand-in on the real OverlapWindowPlugin through the real Plugin.iter.",
  note="Assumed at call sites: Chunk.concatenate of two adjacent chunks (bounded C07 stand-in), super().do_compute returns a "
       "well-formed chunk over the inputs' interval (C08 / C12 contracts), integer windows. Not proved: the multi-output branch, "
       "cache_beyond (retry loop), the final flush in iter, and the step from these invariants to 'equals the whole-run "
       "computation' (needs the locality premise).",
  technique="contract-based deductive verification (modular over the Chunk.split contract, per call variant) + bounded stand-in on the real OverlapWindowPlugin",
  design_ref="DESIGN.md section 6 (C09) and 10"),
 "C16": dict(
  category="proof",
  text="Contract-based deductive proof over the real source of the decisions of the copy operations - Context.copy_to_frontend gives "
       "every target frontend a loader of its own, asks for a write location under the source's key and rechunks exactly when asked; "
       "Context.merge_per_chunk_storage files the merged data under the key of the complete data type only if the groups reach from the "
       "first to the last chunk of the dependency; dry_load_files reads every chunk for None, exactly the named chunks for a list and "
       "exactly that chunk for a number; StorageBackend._read_format_split_chunk (rechunk on load) hands out pieces that are contiguous, "
       "carry the rows of the read chunk in order and cover it to its end, using the contract of Rechunker.get_splits, which is itself "
       "proved (split indices start at 0, increase strictly, each follows a gap larger than min_gap to every earlier row; argmin is never "
       "taken of an empty candidate list) - and of the "
       "two ends every copy / rewrite goes through: "
       "StorageBackend._read_and_format_chunk builds a chunk only from rows whose count equals the recorded count (DataCorrupted "
       "otherwise) and gives it exactly the recorded start / end / run id / subruns; Saver.save_from / Saver.save write every chunk they "
       "receive exactly once under consecutive numbers with the chunk's own row count, range and annotations and finalise only after "
       "every write was checked; Chunk.split keeps all rows in order. That copy_to_frontend, the stand-alone rechunker (compressors x "
       "target sizes x serial / thread / process x replace x progress bar), rechunk on load and per-chunk building + "
       "merge_per_chunk_storage load to exactly the original rows with consistent metadata and an intact source is a bounded stand-in "
       "on the real code (the earlier defects F8 and F13 found here are fixed).",
  note="Not proved: the data path of copy_to_frontend / merge_per_chunk_storage (their wrapped loaders), file_rechunker.rechunker, "
       "the codecs - bounded stand-in only. Library models: np.argwhere / argmin / np.array(list).",
  technique="contract-based deductive verification (obligations at the Chunk constructor call via hooks; Saver contracts) + bounded stand-in on the real code",
  design_ref="DESIGN.md section 6 (C16) and 10"),
 "C01": dict(
  category="other",
  text="Ingredients only, not the end-to-end theorem: contract-based deductive proof over the real source of the per-function building blocks the end-to-end statement rests on, "
       "each for all inputs: split_array / Chunk.split keep every row, in order, wholly on one side of the split; Plugin.do_compute "
       "hands the computation exactly the rows of time-aligned inputs and declares the result for exactly that interval; Plugin._fetch_chunk appends the next chunk of exactly the data type asked for behind what is buffered (nothing dropped, order kept); "
       "Plugin._fix_output wraps a result into a chunk of the declared data type, range and dtype or refuses it; continuity_check lets "
       "only gap-free, overlap-free chunk sequences through; ThreadedMailboxProcessor.__init__ wires lazy mode, drivers and "
       "capacities as specified and feeds a multi-output divider only with outputs that are not loaded from storage (failed on the "
       "pinned tree: defect F22, fixed); in the single-thread processor PostOffice numbers, caches and hands every produced message to "
       "every spy, tells a reader that a message will never come only beyond the last one produced, and SaverSpy saves every chunk "
       "once under consecutive numbers (the mailbox transport itself is C05). The composed statement - get_iter's rows equal the whole-run "
       "computation and the chunks tile the run, independent of source chunking, processor, workers, lazy / eager, capacity, rechunk on "
       "save and stored subset - is a bounded stand-in on the real Context for a graph with row-wise, filtering, same-kind merging, "
       "multi-output, overlap-window and exhaust plugins.",
  note="The composition is NOT proved: Plugin.iter's buffering, the PostOffice as a whole, divide_outputs, loop plugins; the stand-in "
       "covers them on its scope (a down-chunking plugin and a plugin paced by it are in its graph). ParallelSourcePlugin.inline_plugins "
       "is not under contract; a separate bounded stand-in runs the real Context with a process pool (a stateful parallel=False plugin "
       "must not be inlined). 'All thread schedules' is covered for the mailbox layer by C05 only; the stand-in "
       "runs under the OS scheduler.",
  technique="contract-based deductive verification of the building blocks + bounded stand-in on the real Context for the composition",
  design_ref="DESIGN.md section 6 (C01) and 10"),
}

NA_REASON = "check not built yet (see DESIGN.md section 6 for the plan)"

checks = []
for p in props:
    c = CLAIMS.get(p["id"])
    if not c:
        continue
    checks.append({
        "property_id": p["id"],
        "quick_cmd": f"./vcheck {p['id']} --tier quick",
        "thorough_cmd": f"./vcheck {p['id']} --tier thorough",
        "evidence_file": f"/verif/evidence/{p['id']}.json",
        "replay_cmd_template": "./vcheck --replay {path}",
        "engine": "pyvc",
        "level_claimed": {"category": c["category"], "text": c["text"], "design_ref": c["design_ref"]},
        "level_note": c["note"],
        "technique": c["technique"],
    })
na = [{"property_id": p["id"], "reason": NA.get(p["id"], NA_REASON) if (NA := globals().get("NA", {})) is not None else NA_REASON}
      for p in props if p["id"] not in CLAIMS]
m = {
 "version": 1,
 "setup_cmd": "./vcheck --setup",
 "hooks": {"guard": "STRAX_VERIF",
           "enable": "no hook is needed: contracts are sidecar files and the verifier reads /repo's source on every run; the guard name is reserved and unused",
           "baseline_off_cmd": "cd /repo && /venv/bin/python -m pytest -ra -q -p no:cacheprovider --timeout=900 --continue-on-collection-errors",
           "source_commits": [], "add_only": True},
 "engines": [{"name": "pyvc", "path": "pyvc/", "serves_properties": sorted(CLAIMS),
              "kind_free_text": "home-made AST->VC generator (symbolic execution of the real source re-read on every run, loops cut at sidecar invariants, modular calls through contracts) discharged by z3 5.1 with cvc5 1.4 as second back end; the same contract clauses are evaluated concretely on the real code for replay and for the bounded stand-ins"}],
 "checks": checks,
 "notes": "Exit codes of ./vcheck: 0 held, 1 violation (VIOLATION line printed), 2 undecided obligation, 3 checker error. Properties move from not_applicable to checks as their obligations are discharged.",
 "not_applicable": na,
}
json.dump(m, open(os.path.join(HERE, "MANIFEST.json"), "w"), indent=1)
print("checks:", [c["property_id"] for c in checks], "n/a:", len(na))
