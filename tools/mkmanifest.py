"""Regenerate MANIFEST.json from the table below (keeps it schema-valid)."""
import json, os
HERE = os.path.dirname(os.path.dirname(os.path.abspath(__file__)))
props = [json.loads(l) for l in open(os.path.join(HERE, "properties.jsonl"))]

CLAIMS = {
 "C17": dict(
  category="proof",
  text="Contract-based deductive proof, for all array lengths and all iterations, that the containment, touching-window, "
       "overlap-index, gap (diff), break-finding and sortedness-check functions return exactly their set-theoretic "
       "definitions and reject unsorted input; VCs are generated from the real source on every run and discharged by z3/cvc5. "
       "split_by_containment, abs_time_to_prev_next_interval and sort_by_time are outside the verified subset and are covered by "
       "bounded stand-ins (labelled bounded in the evidence, not counted as proved).",
  note="Trusted: the pyvc VC generator, z3/cvc5, the np.argsort(mergesort) library model, integers as mathematical integers, "
       "numba compiles the verified Python source faithfully (cross-checked on every stand-in input against .py_func).",
  technique="contract-based deductive verification (sidecar contracts + loop invariants, AST->VC generator, z3/cvc5); bounded stand-ins for 3 functions",
  design_ref="DESIGN.md section 6, C17"),
}

NA_REASON = "check not built yet (see DESIGN.md section 6 for the plan)"

checks = []
for p in props:
    c = CLAIMS.get(p["id"])
    if not c:
        continue
    checks.append({
        "property_id": p["id"],
        "quick_cmd": f"./vcheck {p['id']} --tier quick",
        "thorough_cmd": f"./vcheck {p['id']} --tier thorough",
        "evidence_file": f"/verif/evidence/{p['id']}.json",
        "replay_cmd_template": "./vcheck --replay {path}",
        "engine": "pyvc",
        "level_claimed": {"category": c["category"], "text": c["text"], "design_ref": c["design_ref"]},
        "level_note": c["note"],
        "technique": c["technique"],
    })
na = [{"property_id": p["id"], "reason": NA.get(p["id"], NA_REASON) if (NA := globals().get("NA", {})) is not None else NA_REASON}
      for p in props if p["id"] not in CLAIMS]
m = {
 "version": 1,
 "setup_cmd": "./vcheck --setup",
 "hooks": {"guard": "STRAX_VERIF",
           "enable": "no hook is needed: contracts are sidecar files and the verifier reads /repo's source on every run; the guard name is reserved and unused",
           "baseline_off_cmd": "cd /repo && /venv/bin/python -m pytest -ra -q -p no:cacheprovider --timeout=900 --continue-on-collection-errors",
           "source_commits": [], "add_only": True},
 "engines": [{"name": "pyvc", "path": "pyvc/", "serves_properties": sorted(CLAIMS),
              "kind_free_text": "home-made AST->VC generator (symbolic execution of the real source re-read on every run, loops cut at sidecar invariants, modular calls through contracts) discharged by z3 5.1 with cvc5 1.4 as second back end; the same contract clauses are evaluated concretely on the real code for replay and for the bounded stand-ins"}],
 "checks": checks,
 "notes": "Exit codes of ./vcheck: 0 held, 1 violation (VIOLATION line printed), 2 undecided obligation, 3 checker error. Properties move from not_applicable to checks as their obligations are discharged.",
 "not_applicable": na,
}
json.dump(m, open(os.path.join(HERE, "MANIFEST.json"), "w"), indent=1)
print("checks:", [c["property_id"] for c in checks], "n/a:", len(na))
