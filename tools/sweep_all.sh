#!/bin/bash
cd /verif
mkdir -p scratch/sweepall
run() { id=$1; prop=$(python3 -c "import json;print(json.load(open('/verif/seeded/$id/meta.json'))['property'])"); SEED_TIMEOUT=2400 tools/try_seed_wt.sh /verif/seeded/$id/patch.diff $prop > scratch/sweepall/$id.log 2>&1; }
ids=$(ls seeded)
n=0
for id in $ids; do
  run $id &
  n=$((n+1))
  if [ $((n % 6)) -eq 0 ]; then wait; fi
done
wait
for id in $ids; do echo "$id $(grep -c '^VIOLATION' scratch/sweepall/$id.log) $(grep -c 'CHECKER-ERROR' scratch/sweepall/$id.log)"; done > scratch/sweepall/SUMMARY.txt
echo done
