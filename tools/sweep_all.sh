#!/bin/bash
# re-run every stored seeded change against the check of its property (scratch worktrees, /repo untouched), 8 at a time;
# logs in scratch/sweepall/<id>.log, summary in scratch/sweepall/SUMMARY.txt.  Seeds whose log already ends with a result are skipped.
cd /verif
mkdir -p scratch/sweepall
one() {
  id=$1
  if [ -s scratch/sweepall/$id.log ] && grep -qE '^C[0-9]+: ' scratch/sweepall/$id.log; then exit 0; fi
  prop=$(python3 -c "import json;print(json.load(open('/verif/seeded/$id/meta.json'))['property'])")
  SEED_TIMEOUT=2400 tools/try_seed_wt.sh /verif/seeded/$id/patch.diff $prop > scratch/sweepall/$id.log 2>&1
}
export -f one
ls seeded | xargs -P 8 -I{} bash -c 'one {}'
for id in $(ls seeded); do echo "$id $(grep -c '^VIOLATION' scratch/sweepall/$id.log) $(grep -c 'CHECKER-ERROR' scratch/sweepall/$id.log)"; done > scratch/sweepall/SUMMARY.txt
echo done
