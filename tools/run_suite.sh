#!/bin/bash
# run the pinned suite on /repo (or $1) and compare with the baseline's stable_pass list
REPO_DIR="${1:-/repo}"
OUT="${2:-/tmp/suite_run}"
mkdir -p "$OUT"
cd "$REPO_DIR" && /venv/bin/python -m pytest -ra -q -p no:cacheprovider --timeout=900 --continue-on-collection-errors --junitxml="$OUT/junit.xml" > "$OUT/log.txt" 2>&1
/venv/bin/python - "$OUT/junit.xml" <<'PY'
import sys, json, xml.etree.ElementTree as ET
base = json.load(open('/root/.vp/BASELINE.json'))
stable = set(base['stable_pass'])
t = ET.parse(sys.argv[1]).getroot()
passed=set(); failed=set()
for tc in t.iter('testcase'):
    name = tc.get('classname') + '::' + tc.get('name')
    bad = any(ch.tag in ('failure','error') for ch in tc)
    skipped = any(ch.tag=='skipped' for ch in tc)
    if bad: failed.add(name)
    elif not skipped: passed.add(name)
missing = sorted(stable - passed)
print("passed", len(passed), "failed", len(failed), "stable-missing", len(missing))
for m in missing: print("  MISSING", m)
PY
