"""print, per property, the functions under contract (discharged on every run) and the bounded stand-ins - the table in DESIGN.md 10.2b
is generated with this (./vpy tools/list_contracts.py)"""
import importlib
import sys

sys.setrecursionlimit(100000)
rows = []
for n in range(1, 20):
    pid = f"C{n:02d}"
    m = importlib.import_module("props." + pid)
    P = m.PROPERTY
    cs = []
    for c in P.contracts:
        k = c.key.split(":", 1)[1]
        cs.append(k)
    lem = [getattr(l, "name", str(l)) for l in getattr(P, "lemmas", [])]
    st = [getattr(s, "name", "?") for s in getattr(P, "structural", [])]
    sis = [s.name for s in P.standins if not s.name.startswith("replay-scope:")]
    nrep = sum(1 for s in P.standins if s.name.startswith("replay-scope:"))
    rows.append((pid, P.level, cs, lem, st, sis, nrep))
print("| id | level | functions under contract (obligations regenerated from /repo and discharged on every run) | lemmas / structural | bounded stand-ins (never counted as proved) |")
print("|---|---|---|---|---|")
for pid, level, cs, lem, st, sis, nrep in rows:
    extra = "; ".join(lem + st) or "-"
    s2 = "; ".join(sis) + (f"; + {nrep} replay scopes of proved contracts" if nrep else "")
    print(f"| {pid} | {level} | {', '.join('`' + c + '`' for c in cs)} | {extra} | {s2 or '-'} |")
