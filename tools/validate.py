import json, sys, glob
import jsonschema
ms = json.load(open('/root/.vp/MANIFEST.schema.json')); es = json.load(open('/root/.vp/EVIDENCE.schema.json'))
m = json.load(open('/verif/MANIFEST.json'))
jsonschema.validate(m, ms); print("MANIFEST valid")
for c in m["checks"]:
    f = c["evidence_file"]
    try:
        jsonschema.validate(json.load(open(f)), es); print(f, "valid")
    except Exception as e:
        print(f, "INVALID", str(e)[:300])
