import sys, time
sys.path[:0]=['/verif','/verif/.deps']
sys.setrecursionlimit(100000)
from pyvc.contract import generate, REG
from pyvc.solve import to_smt2, solve_one
import contracts.all, z3
c = REG.contracts[sys.argv[1]]
run = generate(c)
for vc in run.vcs:
    if vc.kind == sys.argv[2] and sys.argv[3] in vc.label:
        s = z3.Solver(); s.set("timeout", 3000)
        for h in vc.hyps: s.add(h)
        s.add(z3.Not(vc.goal))
        r = s.check()
        print(r, str(vc.goal)[:200].replace("\n"," "))
        if r != z3.unsat:
            for h in vc.hyps[-8:]: print("   H", str(h)[:200].replace("\n"," "))
